package agreement

// C03 — Every committed block carries a certificate that authenticates it. Engine A (zz_verif_enga_*).
//
// Domain: every ensureAction emitted along adversarial Engine-A runs (the C01 exploration).
// Oracle, two independent re-authentications on a FRESH ledger that holds only the agreed prefix (genesis + the blocks
// committed for rounds < r):
//   (A) the production verifier: Certificate.Authenticate(block, freshLedger, avv);
//   (B) a harness-side recomputation that never calls bundle.verify / Authenticate: step == cert, round and digest match
//       the payload handed to the ledger, senders pairwise distinct over votes and equivocation pairs, every vote
//       re-verified individually with unauthenticatedVote.verify (signature, key validity, VRF credential, sortition
//       weight), both halves of every equivocation pair verify and name different values, and the summed weight reaches
//       CertCommitteeThreshold of the round's consensus parameters.

import (
	"fmt"
	"testing"

	"github.com/algorand/go-algorand/config"
	"github.com/algorand/go-algorand/crypto"
	"github.com/algorand/go-algorand/data/basics"
	"github.com/algorand/go-algorand/data/committee"
	"github.com/algorand/go-algorand/protocol"
	"pgregory.net/rapid"
)

type c03Observer struct {
	s  *engaSim
	vk *vkCtx

	checked, own, relayed, latePayload, pipelined, withEq, restored, periodGT0, byzVoter int
}

func (o *c03Observer) transition(n *engaNode, e externalEvent, before player, actions []action) {}
func (o *c03Observer) restarted(n *engaNode, restored bool)                                      {}
func (o *c03Observer) crashed(n *engaNode)                                                       {}

// freshLedger builds a ledger holding only genesis and the agreed blocks of rounds < r.
func (o *c03Observer) freshLedger(r round) Ledger {
	l := makeTestLedger(o.s.genesis)
	for q := round(1); q < r; q++ {
		c, ok := o.s.commits[q]
		if !ok {
			o.s.failf("harness bug: round %d is being committed but round %d was never committed by anybody", r, q)
		}
		l.EnsureBlock(c.Payload.Block, c.Cert)
	}
	return l
}

func (o *c03Observer) ensured(n *engaNode, en engaEnsure) {
	s := o.s
	cert := en.Cert
	block := en.Payload.Block
	l := o.freshLedger(cert.Round)

	// (A) production verifier on the fresh ledger
	if err := cert.Authenticate(block, l, engaVerifier()); err != nil {
		s.failf("C03: certificate of the ensureAction of node %d for round %d does not Authenticate on a fresh ledger: %v", n.id, en.Round, err)
	}

	// (B) independent recomputation
	if cert.Step != cert_ {
		s.failf("C03: ensureAction of node %d carries a step-%d bundle as certificate", n.id, cert.Step)
	}
	if cert.Round != block.Round() {
		s.failf("C03: certificate round %d != block round %d (node %d)", cert.Round, block.Round(), n.id)
	}
	if cert.Proposal.BlockDigest != block.Digest() {
		s.failf("C03: certificate digest %v != digest of the block handed to the ledger %v (node %d round %d)", cert.Proposal.BlockDigest, block.Digest(), n.id, en.Round)
	}
	if cert.Proposal == bottom {
		s.failf("C03: certificate for bottom")
	}
	ver, err := l.ConsensusVersion(ParamsRound(cert.Round))
	if err != nil {
		s.failf("harness bug: consensus version: %v", err)
	}
	threshold := config.Consensus[ver].CertCommitteeThreshold
	seen := map[basics.Address]bool{}
	var weight uint64
	byz := map[basics.Address]bool{}
	for _, b := range s.byz {
		byz[b.addr] = true
	}
	hasByz := false
	for i, auth := range cert.Votes {
		if seen[auth.Sender] {
			s.failf("C03: sender %v appears twice in the certificate of round %d (node %d)", auth.Sender, en.Round, n.id)
		}
		seen[auth.Sender] = true
		hasByz = hasByz || byz[auth.Sender]
		uv := unauthenticatedVote{R: rawVote{Sender: auth.Sender, Round: cert.Round, Period: cert.Period, Step: cert.Step, Proposal: cert.Proposal}, Cred: auth.Cred, Sig: auth.Sig}
		v, err := uv.verify(l)
		if err != nil {
			s.failf("C03: vote %d of the certificate of round %d (node %d) does not verify individually: %v", i, en.Round, n.id, err)
		}
		weight += v.Cred.Weight
	}
	for i, ev := range cert.EquivocationVotes {
		if seen[ev.Sender] {
			s.failf("C03: equivocator %v also appears elsewhere in the certificate of round %d (node %d)", ev.Sender, en.Round, n.id)
		}
		seen[ev.Sender] = true
		hasByz = hasByz || byz[ev.Sender]
		if ev.Proposals[0] == ev.Proposals[1] {
			s.failf("C03: equivocation pair %d of the certificate of round %d names one value twice", i, en.Round)
		}
		var w [2]uint64
		for k := 0; k < 2; k++ {
			uv := unauthenticatedVote{R: rawVote{Sender: ev.Sender, Round: cert.Round, Period: cert.Period, Step: cert.Step, Proposal: ev.Proposals[k]}, Cred: ev.Cred, Sig: ev.Sigs[k]}
			v, err := uv.verify(l)
			if err != nil {
				s.failf("C03: half %d of equivocation pair %d in the certificate of round %d (node %d) does not verify: %v", k, i, en.Round, n.id, err)
			}
			w[k] = v.Cred.Weight
		}
		if w[0] != w[1] {
			s.failf("C03: equivocation pair halves carry different weights %d / %d", w[0], w[1])
		}
		weight += w[0]
	}
	if weight < threshold {
		s.failf("C03: certificate of round %d at node %d proves weight %d < CertCommitteeThreshold %d", en.Round, n.id, weight, threshold)
	}

	// classes
	o.checked++
	class := "own_tracker"
	switch en.Via {
	case voteVerified:
		o.own++
	case bundleVerified:
		class = "relayed_bundle"
		o.relayed++
	case payloadVerified:
		class = "late_payload_after_cert"
		o.latePayload++
	case roundInterruption, none:
		class = "pipelined_on_round_entry"
		o.pipelined++
	default:
		class = "via_" + en.Via.String()
	}
	if en.Restored {
		class = "re-executed_after_restore"
		o.restored++
	}
	if len(cert.EquivocationVotes) > 0 {
		o.withEq++
		o.vk.Label("cert/contains_equivocation_pair")
	}
	if cert.Period > 0 {
		o.periodGT0++
		o.vk.Label("cert/period>0")
	}
	if hasByz {
		o.byzVoter++
		o.vk.Label("cert/contains_byzantine_voter")
	}
	if en.Payload.value() != cert.Proposal {
		o.vk.Label("cert/payload_value_differs_from_cert_proposal_beyond_digest")
	}
	o.vk.Label("cert/" + class)
	o.vk.Label("cert/via_event=" + en.Via.String())
	o.vk.Labelf("cert/votes=%s", engaBucket(len(cert.Votes), 3, 5, 8))
	nt := class != "own_tracker" || cert.Period > 0 || hasByz || len(cert.EquivocationVotes) > 0
	h := crypto.Hash(protocol.EncodeReflect(cert))
	o.vk.Case(nt, fmt.Sprintf("%d/%s/%x", n.id, class, h[:8]))
	if o.vk.WantSample(nt) {
		o.vk.Sample(nt, map[string]any{"node": n.id, "incarnation": en.Incarnation, "round": en.Round, "period": cert.Period, "class": class,
			"votes": len(cert.Votes), "equivocationPairs": len(cert.EquivocationVotes), "weight": weight, "threshold": threshold, "digest": en.Digest.String()})
	}
}

const cert_ = cert

func TestVerif_C03_Certificates(t *testing.T) {
	vk := vkBegin(t, "C03")
	vk.Rule("one case = one ensureAction emitted in an adversarial Engine-A run; its certificate is re-authenticated twice on a fresh ledger (production Authenticate + independent recomputation); non-trivial = certificate obtained through a relayed bundle, through the late-payload path, pipelined on round entry, re-executed after a restore, from period > 0, containing a Byzantine voter or an equivocation pair (plain own-tracker period-0 certificates are the trivial class); distinct by (node, class, certificate hash)")
	rapid.Check(t, func(t *rapid.T) {
		var o *c03Observer
		c := engaRunCase(t, engaCaseOpts{hook: func(s *engaSim) {
			o = &c03Observer{s: s, vk: vk}
			s.obs = append(s.obs, o)
		}})
		c.account(vk)
		vk.Labelf("run/commits=%d", min(len(c.s.commits), 4))
		vk.Labelf("run/ensure_actions=%s", engaBucket(o.checked, 0, 3, 8))
		vk.Add("certificates_checked", int64(o.checked))
		vk.Add("class_own_tracker", int64(o.own))
		vk.Add("class_relayed_bundle", int64(o.relayed))
		vk.Add("class_late_payload", int64(o.latePayload))
		vk.Add("class_pipelined", int64(o.pipelined))
		vk.Add("class_restored", int64(o.restored))
		vk.Add("with_equivocation_pair", int64(o.withEq))
		vk.Add("period_gt0", int64(o.periodGT0))
		vk.Add("with_byzantine_voter", int64(o.byzVoter))
		if c.s.stats.byzCertSplit > 0 {
			vk.Label("run/byz_cert_split_equivocation")
		}
	})
}

// TestVerif_C03_Paths constructs, on drawn populations, the certificate paths that random schedules reach rarely:
// "late": proposal payloads are withheld from node X, which sees the cert threshold first (stageDigest) and commits
// when the payload finally arrives (player.go:705-719); "bundle": cert votes are withheld from X, the others commit, and
// a Byzantine identity relays the certificate assembled from the votes on the wire (bundleVerified path);
// "pipelined": X lags one round behind while the others finish round 2, X receives round-2 traffic pipelined, then
// finishes round 1 and handles the stored round-2 thresholds on round entry (player.go:494-500).
// Everything between the constructive steps is the benign policy; the same observer re-authenticates every certificate.
func TestVerif_C03_Paths(t *testing.T) {
	vk := vkBegin(t, "C03")
	vk.Rule("constructed certificate paths (late payload / relayed Byzantine bundle / pipelined round entry) on drawn populations; cases as in TestVerif_C03_Certificates")
	rapid.Check(t, func(t *rapid.T) {
		path := rapid.SampledFrom([]string{"late", "bundle", "pipelined"}).Draw(t, "path")
		cfg := engaDrawConfig(t, 3, 5, 6, 9, 0)
		if path == "bundle" {
			cfg.Byz = 1
			cfg.Stake = append(cfg.Stake, 1_000_000)
		}
		var o *c03Observer
		s := engaNewSimHook(t, cfg, func(s *engaSim) {
			s.traceOn = true
			o = &c03Observer{s: s, vk: vk}
			s.obs = append(s.obs, o)
		})
		sc := engaNewSched(t, s)
		x := rapid.IntRange(0, cfg.Nodes-1).Draw(t, "laggard")
		others := func(r round) bool {
			for i, n := range s.nodes {
				if i != x && n.committed() < r {
					return false
				}
			}
			return true
		}
		run := func(max int, until func() bool) {
			for i := 0; i < max && !until(); i++ {
				if !s.benignStep(sc.entropy()) {
					return
				}
			}
		}
		X := s.nodes[x]
		switch path {
		case "late":
			s.hold = func(m *engaMsg) bool { return m.dst == x && m.cls == engaClsPayload }
			run(2500, func() bool { return others(1) && (s.stats.stageDigest > 0 || X.committed() >= 1) })
			s.hold = nil
			run(2500, func() bool { return X.committed() >= 1 })
		case "bundle":
			s.hold = func(m *engaMsg) bool { return m.dst == x && m.cls == int(cert) }
			run(2500, func() bool { return others(1) })
			if X.committed() < 1 && others(1) {
				// the adversary relays the certificate of round 1 to X
				for try := 0; try < 8 && s.stats.byzBundles == 0; try++ {
					sc.byz.bundle(sc, 1, s.commits[1].Cert.Period)
				}
			}
			run(1500, func() bool { return X.committed() >= 1 })
		case "pipelined":
			s.hold = func(m *engaMsg) bool {
				uv, ok := engaVoteOf(m)
				return ok && m.dst == x && uv.R.Step == cert && uv.R.Round == 1
			}
			run(4000, func() bool { return others(2) })
			s.hold = nil
			run(3000, func() bool { return X.committed() >= 2 })
		}
		vk.Labelf("paths/%s", path)
		if X.committed() >= 1 {
			vk.Labelf("paths/%s/laggard_committed", path)
		}
		vk.Add("paths_certificates_checked", int64(o.checked))
		vk.Add("paths_class_relayed_bundle", int64(o.relayed))
		vk.Add("paths_class_late_payload", int64(o.latePayload))
		vk.Add("paths_class_pipelined", int64(o.pipelined))
	})
}

// TestVerif_C03_EquivocatorCert: scripted construction of a certificate whose quorum is only reached with the weight of
// two equivocators whose first votes were split (the shape voteTracker.genBundle must render as: plain votes of the
// non-equivocators + one pair per equivocator, every sender once).
//
// 4 honest nodes with one account each (18 % of stake each), Byzantine X1 (16 %) and X2 (12 %). All cert votes are kept
// in the network; node 0's cert tracker is then fed in this order: its own cert vote for v; X1: v then v'; X2: v' then v;
// node 1's and node 2's cert votes for v (node 3's never arrives). Weights: 3·18 % + 16 % < 74.1 % <= 3·18 % + 16 % + 12 %,
// so the threshold is crossed by node 2's vote and only thanks to both equivocators; X1 is heavier, so its pair is packed
// first. Node 0 holds the block and hands block + certificate to the ledger; c03Observer re-authenticates it.
// The inequalities are re-checked on the real sortition weights of each population; populations where they do not hold
// are counted as not applicable.
func TestVerif_C03_EquivocatorCert(t *testing.T) {
	vk := vkBegin(t, "C03")
	vk.Rule("scripted certificate needing two split-first-vote equivocators, 12 populations; cases as in TestVerif_C03_Certificates (one per ensureAction)")
	for ks := uint64(0); ks < 12; ks++ {
		note := c03EquivocatorCert(t, vk, ks)
		if note == "" {
			vk.Label("eqcert/effective")
		} else {
			vk.Label("eqcert/not_applicable")
			vk.Sample(false, map[string]any{"keySeed": ks, "note": note})
		}
	}
}

func c03EquivocatorCert(t *testing.T, vk *vkCtx, keySeed uint64) string {
	cfg := engaConfig{Nodes: 4, Accts: []int{1, 1, 1, 1}, Byz: 2, KeySeed: keySeed,
		Stake: []uint64{1_800_000, 1_800_000, 1_800_000, 1_800_000, 1_600_000, 1_200_000}}
	var o *c03Observer
	s := engaNewSimHook(t, cfg, func(s *engaSim) {
		s.traceOn = true
		o = &c03Observer{s: s, vk: vk}
		s.obs = append(s.obs, o)
	})
	adv := &engaAdversary{s: s}
	x1, x2 := s.byz[0], s.byz[1]
	ent := func() uint64 { return 1 }
	all := []int{0, 1, 2, 3}
	// phase A: no cert vote is delivered anywhere; run until every honest node has soft-voted
	s.hold = func(m *engaMsg) bool { return m.cls == int(cert) }
	var v proposalValue
	softDone := func() bool {
		for k, uvs := range s.votesSeen {
			if k.r == 1 && k.p == 0 && k.s == soft && len(uvs) == 4 {
				v = k.v
				return true
			}
		}
		return false
	}
	for i := 0; i < 2000 && !softDone(); i++ {
		if !s.benignStep(ent()) {
			break
		}
	}
	if !softDone() {
		return "honest soft votes split"
	}
	s.drain(500)
	var vOther proposalValue
	for _, c := range adv.knownValues(1) {
		if c != v {
			vOther = c
			break
		}
	}
	if vOther == (proposalValue{}) {
		return "no second proposal value known"
	}
	// real weights of this population
	w := map[int]uint64{}
	for _, id := range s.ids {
		m, err := membership(s.ref, id.addr, 1, 0, cert)
		if err != nil {
			return "membership"
		}
		if c, err := committee.MakeCredential(&id.vrf.SK, m.Selector).Verify(engaProto(), m); err == nil {
			w[id.idx] = c.Weight
		}
	}
	T := engaProto().CertCommitteeThreshold
	h3 := w[0] + w[1] + w[2]
	if !(h3+w[4] < T && h3+w[4]+w[5] >= T && w[4] > w[5] && w[5] > 0) {
		return fmt.Sprintf("weights do not fit: honest3=%d x1=%d x2=%d T=%d", h3, w[4], w[5], T)
	}
	// the Byzantine soft votes complete the soft quorum (honest stake is 72 %), honest nodes cert-vote v
	for _, b := range []*engaIdentity{x1, x2} {
		if uv, ok := adv.makeVote(b, engaStepKey{1, 0, soft}, v); ok {
			adv.inject(b, all, protocol.AgreementVoteTag, protocol.Encode(&uv))
		}
	}
	s.drain(2000)
	if len(s.votesSeen[engaVoteKey{1, 0, cert, v}]) < 4 {
		return "honest nodes did not all cert-vote v"
	}
	if s.nodes[0].committed() >= 1 {
		return "node 0 committed too early"
	}
	// phase B: feed node 0's cert tracker in the prescribed order
	n0 := s.nodes[0]
	settle := func() {
		for n0.localStep() {
		}
	}
	byzVote := func(b *engaIdentity, val proposalValue) bool {
		uv, ok := adv.makeVote(b, engaStepKey{1, 0, cert}, val)
		if !ok {
			return false
		}
		adv.inject(b, []int{0}, protocol.AgreementVoteTag, protocol.Encode(&uv))
		s.hold = nil
		for k, m := range s.pool {
			if m.dst == 0 && m.src == -1-b.idx && m.cls == int(cert) {
				s.deliverMsg(k, false)
				break
			}
		}
		s.hold = func(m *engaMsg) bool { return m.cls == int(cert) }
		settle()
		return true
	}
	honestVote := func(from int) bool {
		s.hold = nil
		defer func() { s.hold = func(m *engaMsg) bool { return m.cls == int(cert) } }()
		for k, m := range s.pool {
			if m.dst == 0 && m.src == from && m.cls == int(cert) {
				if uv, ok := engaVoteOf(m); ok && uv.R.Sender == s.nodes[from].ids[0].addr {
					s.deliverMsg(k, false)
					settle()
					return true
				}
			}
		}
		return false
	}
	if !(byzVote(x1, v) && byzVote(x1, vOther) && byzVote(x2, vOther) && byzVote(x2, v)) {
		return "Byzantine cert votes could not be made"
	}
	before := o.checked
	if !honestVote(1) || !honestVote(2) {
		return "honest cert votes not found in the network"
	}
	if o.checked == before {
		return "threshold not crossed at node 0"
	}
	en := s.ensures[len(s.ensures)-1]
	if len(en.Cert.EquivocationVotes) == 0 {
		return "certificate without equivocation pair"
	}
	vk.Labelf("eqcert/pairs=%d", len(en.Cert.EquivocationVotes))
	return ""
}
